"""C10 - spelling does not matter."""
import ast
import re

from ..engine import sym
from ..engine.interp import Rec, ClassVal, Raised
from ..engine.loader import Unknown, norm_text, walk_local, public_qual
from ..engine.sym import is_sym
from ..rules import escape
from ..rules.world import eager_interp, emit_report_summary, Shapes, STATE
from . import c01, c05, c06, c15

EXPLANATION = (
    "G6 (sink-driven): every comparison of text that comes from the source file with a cased constant (==, !=, in, ordering, "
    "startswith/endswith, .index, subscripts of cased constant tables) must have a case fold (.lower()/.upper()) on the "
    "variable side or on its reaching definition; sinks on internal values (pattern characters, state tags, annotation names, "
    "CLI flags) are listed by function and skipped. Companions: the symbol/instruction/operator tables are "
    "CaseInsensitiveDicts whose methods lower their keys (abstract execution with a symbolic key); Parser.regex compiles "
    "case-insensitively and Parser.literal compares lowered with lowered unless asked otherwise, and no call site asks. "
    "Shared rules: register aliases (C01.T2r), mnemonic synonyms (C01.S), '(rN)' == '@rN' and the other shapes (C01.T2), "
    "bracket transparency (C05.R9), radix spellings (C05.R4), '.word' == implicit list (C06.R23), escape letters (C06.R6e), "
    "RADIX-50 case (C15), '%N' usable wherever 'rN' is (G11).")
ASSUMPTIONS = ["equivalence under whitespace / comment / case rewriting is decided on a 41-statement corpus (C10.parse: the real parser run abstractly), not for arbitrary texts"]
TRUSTED = ["python ast", "sa.engine.interp"]
LEVEL_TEXT = "Folding is a def-use fact at each comparison site; table and regex behaviour holds for every key / text."
LEVEL_NOTE = "the internal-sink table is frozen by function name with a reason each"
TECHNIQUE = "sink-driven case-fold taint over comparisons with cased constants + abstract interpretation of CaseInsensitiveDict / Parser.regex / Parser.literal"

INTERNAL = {
    "bk_encoding::encode": "codec protocol argument", "bk_encoding::decode": "codec protocol argument", "bk_encoding::_search": "codec name given by Python's codec machinery (already normalised)",
    "insns::init": "pattern characters of the literal opcode table", "metacommand_impl::typing_get_origin#2": "typing internals", "metacommand_impl::typing_get_args#2": "typing internals",
    "metacommand_impl::Metacommand.__init__": "parameter names of directive functions", "metacommand_impl::Metacommand.compile_insn.fn": "annotation names",
    "operators::operator": "decorator arguments (literals)", "parser::expression": "associativity attribute set from literals",
    "compiler::Compiler.compile_block": "state['context'] tag set from literals", "compiler::Compiler.generate_listing": "internal key prefix written by compile_file (C19/C11.R1k)",
    "_cli::main_cli": None,   # judged per sink below
    "radix50::encode_char": "callers pass upper-cased text (C15.lit checks the fold before pack_to_int)", "radix50::pack_to_int": "callers pass upper-cased text (C15.lit)",
    "reports::colorize": "presentation only", "reports::GraphicalHandler.__call__": "presentation only", "reports::FilterHandler.__call__": "warning identifiers are literals of the code",
    "devices::is_device_path": "device names (lowered explicitly, re.I)", "devices::register_device": "import-time assertion",
}
CLI_INTERNAL = {"warning_name.startswith('no-')": "CLI flag", "lst_file == '-.lst'": "derived name"}
CASED_TABLES = {"REGISTER_NAMES", "BASES", "TABLE"}
# attributes whose values are literals of the code wherever they are compared (operator metadata given to @operator)
CODE_ATTRS = {"associativity": "operator metadata: a literal argument of @operator, not text of the source file"}


def cased(v):
    if isinstance(v, str):
        return any(c.isalpha() for c in v)
    if isinstance(v, (tuple, list, set, frozenset)):
        return any(cased(x) for x in v)
    if isinstance(v, dict):
        return any(cased(k) for k in v)
    return False


_MODULE_CONSTS = {}


def lit(node):
    try:
        return ast.literal_eval(node)
    except Exception:
        pass
    # a module-level name for a literal (CHARS = frozenset("...") / ("a", "b")), bound once in its module
    if isinstance(node, ast.Name):
        mod = getattr(getattr(node, "_module", None), "tree", None)
        p_ = node
        while mod is None and p_ is not None:
            mod = getattr(getattr(p_, "_module", None), "tree", None)
            p_ = getattr(p_, "_parent", None)
            if isinstance(p_, ast.Module):
                mod = p_
        if mod is not None:
            key = (id(mod), node.id)
            if key not in _MODULE_CONSTS:
                binds = [st for st in mod.body if isinstance(st, ast.Assign) and any(isinstance(t, ast.Name) and t.id == node.id for t in st.targets)]
                val = None
                if len(binds) == 1:
                    v = binds[0].value
                    if isinstance(v, ast.Call) and isinstance(v.func, ast.Name) and v.func.id in ("frozenset", "set", "tuple") and len(v.args) == 1:
                        v = v.args[0]
                    try:
                        val = ast.literal_eval(v)
                    except Exception:
                        val = None
                _MODULE_CONSTS[key] = val
            return _MODULE_CONSTS[key]
    return None


def has_fold(expr):
    for n in ast.walk(expr):
        if isinstance(n, ast.Call) and isinstance(n.func, ast.Attribute) and n.func.attr in ("lower", "upper", "casefold") and not n.args:
            return True
    return False


def folded(fn, expr, at_line):
    """expr itself folds, or it is a name/attribute-free name whose nearest preceding assignment folds"""
    if has_fold(expr):
        return True
    names = [n.id for n in ast.walk(expr) if isinstance(n, ast.Name)]
    for nm in names:
        defs = [a for a in walk_local(fn) if isinstance(a, ast.Assign) and any(isinstance(t, ast.Name) and t.id == nm for t in a.targets) and a.lineno <= at_line]
        if defs:
            d = max(defs, key=lambda a: a.lineno)
            if has_fold(d.value):
                return True
    return False


SOURCE_ATTRS = {"name", "string", "representation", "quote"}


def source_derived(fn, q, expr, at_line, depth=0):
    """does the variable side carry text of the source file? (parser module: everything read from ctx is;
    elsewhere: token fields name/string/representation, text(), or a name assigned from / iterating over such)"""
    if q.startswith("parser::"):
        return True
    for n in ast.walk(expr):
        if isinstance(n, ast.Attribute) and n.attr in SOURCE_ATTRS:
            return True
        if isinstance(n, ast.Call) and isinstance(n.func, ast.Attribute) and n.func.attr in ("text", "group"):
            return True
        if isinstance(n, ast.Call) and isinstance(n.func, ast.Name) and n.func.id == "get_as_str":
            return True
    if depth >= 2:
        return False
    for nm in [n.id for n in ast.walk(expr) if isinstance(n, ast.Name)]:
        for a in walk_local(fn):
            if isinstance(a, ast.Assign) and any(isinstance(t, ast.Name) and t.id == nm for t in a.targets) and a.lineno <= at_line:
                if source_derived(fn, q, a.value, a.lineno, depth + 1):
                    return True
            if isinstance(a, (ast.For, ast.comprehension)) and any(isinstance(t, ast.Name) and t.id == nm for t in ast.walk(a.target)):
                if source_derived(fn, q, a.iter, getattr(a, "lineno", at_line), depth + 1):
                    return True
        if nm in {p.arg for p in fn.args.args} and nm in ("name", "char", "symbol", "filename", "write_path", "bk_filename", "path") and not isinstance(fn, ast.Lambda):
            return True
    return False


def rule_G6(ck):
    repo = ck.repo
    n_src = 0
    for q, fn in repo.all_functions():
        if q.split("::")[0] in ("devices",):
            continue
        reason = INTERNAL.get(q, INTERNAL.get(public_qual(q), "source"))
        sinks = []
        for n in walk_local(fn):
            if isinstance(n, ast.Compare):
                left = n.left
                for opn, right in zip(n.ops, n.comparators):
                    if isinstance(opn, (ast.Eq, ast.NotEq, ast.In, ast.NotIn, ast.Lt, ast.LtE, ast.Gt, ast.GtE)):
                        l, r = lit(left), lit(right)
                        if l is not None and cased(l) and r is None:
                            sinks.append((n, right, norm_text(n)))
                        elif r is not None and cased(r) and l is None:
                            sinks.append((n, left, norm_text(n)))
                        elif isinstance(opn, (ast.In, ast.NotIn)) and isinstance(right, ast.Name) and right.id in CASED_TABLES and l is None:
                            sinks.append((n, left, norm_text(n)))
                    left = right
            if isinstance(n, ast.Call) and isinstance(n.func, ast.Attribute) and n.func.attr in ("startswith", "endswith") and n.args:
                a = lit(n.args[0])
                if a is not None and cased(a):
                    sinks.append((n, n.func.value, norm_text(n)))
            if isinstance(n, ast.Call) and isinstance(n.func, ast.Attribute) and n.func.attr == "index" and n.args and norm_text(n.func.value).split(".")[-1] in CASED_TABLES:
                sinks.append((n, n.args[0], norm_text(n)))
            if isinstance(n, ast.Subscript) and isinstance(n.ctx, ast.Load) and isinstance(n.value, ast.Name) and n.value.id in CASED_TABLES and lit(n.slice) is None:
                sinks.append((n, n.slice, norm_text(n)))
        for node, var, text in sinks:
            internal = reason != "source" and reason is not None
            if isinstance(var, ast.Attribute) and var.attr in CODE_ATTRS:
                internal, reason = True, CODE_ATTRS[var.attr]
            if q == "_cli::main_cli":
                internal = text in CLI_INTERNAL
            ck.instance(("sink", q, text), {"site": q, "comparison": text[:80], "kind": "internal: " + str(reason or CLI_INTERNAL.get(text)) if internal else "source text"}, fn=q)
            if internal:
                continue
            if not source_derived(fn, q, var, node.lineno):
                continue      # a value the code made itself (pattern characters, tags, formats)
            n_src += 1
            if not folded(fn, var, node.lineno):
                ck.violation(node, f"'{text[:80]}' compares text from the source file with a cased constant without folding case: the upper-case spelling of the same program is treated differently",
                             construct=f"unfolded comparison {text[:70]}")
    if n_src < 8:      # about 20 on the pinned tree; membership sets and helpers merge several of them
        ck.unknown(f"only {n_src} source-text sinks found (about 20 confirmed by hand)")


def rule_tables(ck):
    repo = ck.repo
    I = eager_interp(repo)
    I.summaries = {"reports::emit_report": emit_report_summary}
    # the named tables are CaseInsensitiveDicts
    def thunk():
        comp = I.instantiate(I.module_get("compiler", "Compiler"), [], {})
        ops = I.module_get("operators", "operators")
        return {"Compiler.symbols": comp.fields["symbols"], "Compiler.extern_symbols_mapping": comp.fields["extern_symbols_mapping"], "insns.instructions": I.module_get("insns", "instructions"),
                "builtins.builtin_commands": I.module_get("builtins", "builtin_commands"), **{f"operators[{k.name}]": v for k, v in ops.items()}}
    tabs = I.explore(thunk)[0].value
    for name, t in tabs.items():
        ok = isinstance(t, Rec) and t.cls.name == "CaseInsensitiveDict"
        ck.instance(("table", name), {"table": name, "class": t.cls.name if isinstance(t, Rec) else type(t).__name__}, fn="containers::CaseInsensitiveDict")
        if not ok:
            ck.violation("containers::CaseInsensitiveDict", f"{name} is a {t.cls.name if isinstance(t, Rec) else type(t).__name__}, not a case-insensitive table: names differing in case only are different entries", construct=f"table {name}")
    # every method lowers its key
    KEY = sym.var("Key", "str")
    low = sym.op("lower", KEY)

    def run(method, args, prefill=None):
        def th():
            C = I.module_get("containers", "CaseInsensitiveDict")
            d = I.instantiate(C, [], {})
            if prefill:
                d.fields["container"].update(prefill)
            r = I.call_method(d, method, args)
            return r, dict(d.fields["container"])
        return I.explore(th)
    where = "containers::CaseInsensitiveDict"
    ps = run("__setitem__", [KEY, 1])
    ck.instance(("method", "__setitem__"), {"stored under": [repr(k) for k in ps[0].value[1]]}, fn=where + ".__setitem__")
    if ps[0].kind != "return" or list(ps[0].value[1]) != [low]:
        ck.violation(where + ".__setitem__", f"an entry is stored under {[repr(k) for k in ps[0].value[1]]}, not under the lowered key", construct="CaseInsensitiveDict.__setitem__")
    for method, args in (("__contains__", [KEY]), ("__getitem__", [KEY]), ("get", [KEY])):
        ps = run(method, args, {low: ("Key", 42)})
        vals = {repr(p.value[0]) if p.kind == "return" else repr(p.value) for p in ps}
        ck.instance(("method", method), {"lookup of Key in a table holding lower(Key)": sorted(vals)}, fn=f"{where}.{method}")
        want = {"True"} if method == "__contains__" else {"42"}
        if vals != want:
            ck.violation(f"{where}.{method}", f"{method}(Key) on a table that holds the entry under lower(Key) gives {sorted(vals)}: the lookup does not lower its key", construct=f"CaseInsensitiveDict.{method}")
    # constructor from a container lowers too
    def th2():
        C = I.module_get("containers", "CaseInsensitiveDict")
        d = I.instantiate(C, [I.instantiate(C, [], {})], {})
        src = I.instantiate(C, [], {})
        I.call_method(src, "__setitem__", ["MiXed", 7])
        d2 = I.instantiate(C, [src], {})
        return dict(d2.fields["container"])
    ps = I.explore(th2)
    ck.instance(("method", "__init__"), {"copy of a table with key 'MiXed'": repr(ps[0].value)}, fn=where + ".__init__")
    if ps[0].kind != "return" or list(ps[0].value) != ["mixed"]:
        ck.violation(where + ".__init__", f"copying a table keeps keys as {list(ps[0].value) if ps[0].kind == 'return' else ps[0].value}", construct="CaseInsensitiveDict.__init__")


def rule_parsers(ck):
    repo = ck.repo
    I = eager_interp(repo)
    I.summaries = {"reports::emit_report": emit_report_summary}
    # Parser.regex default flags
    def th():
        P = I.module_get("parser", "Parser")
        r = I.call(I.getattr(P, "regex"), ["[a-z]+"], {})
        from ..rules.world import closure_pattern
        return closure_pattern(r)
    rx = I.explore(th)[0].value
    ck.instance("regex-default", {"Parser.regex('[a-z]+') flags ignore case": bool(rx.flags & re.I)}, fn="parser::Parser.regex")
    if not rx.flags & re.I:
        ck.violation("parser::Parser.regex", "Parser.regex compiles case-sensitively by default: upper-case mnemonics, symbols and hex digits no longer parse like lower-case ones", construct="Parser.regex default flags")
    # no call site asks for case sensitivity
    for q, fn in list(repo.all_functions()) + [("parser::<module>", repo.module("parser").tree)]:
        nodes = ast.walk(fn) if q.endswith("<module>") else walk_local(fn)
        for c in nodes:
            if isinstance(c, ast.Call) and isinstance(c.func, ast.Attribute) and c.func.attr in ("regex", "literal") and norm_text(c.func.value) == "Parser":
                kw = {k.arg: k.value for k in c.keywords}
                ck.instance(("parser-site", q, c.lineno, c.col_offset), None, fn=q)
                if "case_sensitive" in kw and not (isinstance(kw["case_sensitive"], ast.Constant) and kw["case_sensitive"].value is False):
                    ck.violation(c, f"{norm_text(c)[:70]} asks for case-sensitive matching", construct=f"case_sensitive in {norm_text(c)[:50]}")
    # Parser.literal compares lowered with lowered
    for code, want in (("aBc rest", "abc"), ("ABC", "abc"), ("abd", None)):
        def th2():
            P = I.module_get("parser", "Parser")
            C = I.module_get("context", "Context")
            p = I.call(I.getattr(P, "literal"), ["AbC"], {})
            ctx = I.instantiate(C, ["f", code], {})
            try:
                return I.call(p.fields["fn"], [ctx], {}), ctx.fields["pos"]
            except Raised as r:
                return None, ctx.fields["pos"]
        ps = I.explore(th2)
        ck.instance(("literal", code), {"Parser.literal('AbC') on": code, "result": repr(ps[0].value)}, fn="parser::Parser.literal")
        got = ps[0].value[0]
        if (got is None) != (want is None) or (want is not None and ps[0].value[1] != 3):
            ck.violation("parser::Parser.literal", f"Parser.literal('AbC') on text {code!r} gives {ps[0].value!r}", construct="Parser.literal case")


# --------------------------------------------------------------------------------------------------------------
# C10.parse: the statement parser sees through letter case, horizontal whitespace, blank lines and comments
# corpus: each statement is a list of pieces; ("c", text) is code, ("l", text) a string/character literal kept verbatim
def _c(t):
    return ("c", t)


def _l(t):
    return ("l", t)


CORPUS = [
    [_c("mov r0, r1")], [_c("mov #12, @#100")], [_c("mov @(r2)+, -(sp)")], [_c("clr tbl+2(r3)")], [_c("add @10(pc), r5")], [_c("jsr pc, sub1")],
    [_c("br lab")], [_c("sob r2, lab")], [_c("lab: nop")], [_c("lab2:: nop")], [_c("1: dec r0")], [_c("bne 1")], [_c("x = 5")], [_c("y == x + 3")],
    [_c(". = . + 10")], [_c(".word 1, 2, lab+2")], [_c("1, 2, 3")], [_c(".byte 12, 0x1f, 10.")], [_c(".ascii "), _l('"ab"'), _c("<12>"), _l("/cd/")],
    [_c(".asciz "), _l('"x;y"')], [_c(".rad50 "), _l("/abc/")], [_c(".blkb 10")], [_c(".even")], [_c(".repeat 3 { nop }")], [_c(".link 2000")],
    [_c(".include "), _l('"f.mac"')], [_c("make_raw "), _l('"out"')], [_c("mov #<1+2>*3, r0")], [_c("mov #^xff & 0b101, r0")], [_c("mov #"), _l('"ab'), _c(", r0")],
    [_c("mov #"), _l("'a"), _c(", r0")], [_c("emt 377")], [_c("mov %1, @%2")], [_c("mov x(r1), -y(r2)")], [_c(".extern all")], [_c("a = b _ 2 ! 1")], [_c("a = ^c1")],
    [_c("insert_file "), _l('"data.bin"')], [_c("tst (r1)")], [_c("tst @r1")], [_c("mov #-1, r0")], [_c("mov (r0)+, (r1)+")], [_c("tst (r0)+")], [_c("x = 5 + 3")], [_c("lab3:")],
]


def _respell(pieces, how):
    out = []
    for kind, t in pieces:
        if kind == "l":
            out.append(t)
            continue
        if how == "upper":
            t = t.upper()
        elif how == "spaces":
            t = t.replace(", ", " ,\t ").replace(" ", " \t ")
        elif how == "tight":
            t = t.replace(", ", ",").replace(" + ", "+").replace(" = ", "=").replace(" == ", "==").replace(" & ", "&").replace(" ! ", "!")      # not " _ ": b_2 is a name
        out.append(t)
    text = "".join(out)
    if how == "spaces":
        text = " \t" + text + " \t "
    if how == "comment":
        text = "; leading comment 'x \"y\n\n" + text + " ; trailing: mov r0, r1 \"quoted\" 'c\n\n ; another\n"
    if how == "comment-tight":
        text = text.rstrip("\n") + ";no blank before this comment\n"
    if how == "blank":
        text = "\n\n \n" + text + "\n\n\t\n"
    if how == "eof-blanks":
        return text.rstrip("\n") + " \t "         # the last line of a file: no newline, trailing blanks
    if how == "eof":
        return text.rstrip("\n")
    return text + ("" if text.endswith("\n") else "\n")


def _tree_norm(t):
    """parse tree without positions, names case-folded, numbers by value"""
    if isinstance(t, Rec):
        f = t.fields
        cname = t.cls.name
        if cname == "Context":
            return "<ctx>"
        if "char" in t.cls.attrs:
            base = t.cls.bases[0].name if getattr(t.cls, "bases", None) else "?"
            cname = f"{base}:{t.cls.attrs['char']}"
        if cname == "Number":
            return ("Number", f.get("value"), f.get("is_valid_label"), f.get("invalid_base8"))
        items = []
        for k, v in sorted(f.items()):
            if k in ("ctx_start", "ctx_end", "ctx", "value", "reported_error", "evaluated_value", "label_error_emitted", "assignment_error_emitted") and cname not in ("Assignment",):
                continue
            if k in ("ctx_start", "ctx_end"):
                continue
            if k == "name" and isinstance(v, str):
                v = v.lower()
            if k == "representation" and isinstance(v, str):
                v = v[:1] + v[1:]      # character literals: the quote and the characters, kept as written
            items.append((k, _tree_norm(v)))
        return (cname, tuple(items))
    if isinstance(t, (list, tuple)):
        return tuple(_tree_norm(x) for x in t)
    return t if isinstance(t, (str, int, bool, bytes, type(None))) else repr(t)


def rule_respell(ck):
    """For each statement of the corpus the real `code` parser is run (abstractly) on the statement as written and on its
    respellings; the parse trees must agree up to positions, letter case of names and the spelling of numbers."""
    from .c05 import run_parser
    repo = ck.repo
    I = eager_interp(repo)
    where = "parser::code"
    n = 0
    # the package's __init__ imports every module: the directive registry the parser consults must be complete
    reg = I.explore(lambda: (I.module_get("metacommands", "rad50"), I.module_get("insns", "instructions"), I.module_get("builtins", "builtin_commands")))
    if len(reg) != 1 or reg[0].kind != "return" or "make_raw" not in reg[0].value[2].fields["container"]:
        raise Unknown("the directive registry does not fold (make_raw is not registered)")
    for pieces in CORPUS:
        plain = _respell(pieces, "plain")
        try:
            r0, pos0, errs0, raised0 = run_parser(I, "code", plain)
        except Unknown as ex:
            raise Unknown(f"statement {plain!r}: {ex}") from None
        if raised0 or errs0 or pos0 < len(plain.rstrip()):
            raise Unknown(f"corpus statement {plain!r} does not parse cleanly (errors {errs0}, raised {raised0}, stopped at {pos0})")
        want = _tree_norm(r0)
        idx = CORPUS.index(pieces)
        hows = ("upper", "spaces", "tight", "comment", "comment-tight", "blank", "eof", "eof-blanks")
        if getattr(ck, "tier", "quick") == "quick" and idx % 2:
            hows = ("upper", "comment", "comment-tight", "eof-blanks")        # every second statement gets the short list in the quick tier
        for how in hows:
            text = _respell(pieces, how)
            if how == "tight" and text == plain:
                continue
            r, pos, errs, raised = run_parser(I, "code", text)
            n += 1
            ck.instance(("respell", plain.strip(), how), {"statement": plain.strip(), "respelling": how, "text": text[:60]} if n % 7 == 0 else None, fn=where)
            got = _tree_norm(r) if r is not None else None
            if raised or errs or got != want:
                ck.violation(where, f"the statement {plain.strip()!r} respelled ({how}) as {text!r} parses differently: "
                                    + (f"errors {errs} / raised {raised}" if raised or errs else f"tree {str(got)[:160]} instead of {str(want)[:160]}")
                                    + " - the emitted bytes depend on spelling, not on meaning", construct=f"respelling {how}: {plain.strip()}")

def rule_grouping(ck):
    """( E ), < E > and ^xEx (x any of the delimiter characters the parser accepts: / | : and so on) are one expression: the
    real `code` parser on '.word <group>' for several E; every spelling parses cleanly and gives the tree of the '( )' spelling,
    the bracket characters aside."""
    from .c05 import run_parser
    repo = ck.repo
    I = eager_interp(repo)
    where = "parser::expression_literal"

    def norm(t):
        t = _tree_norm(t)

        def strip(x):
            if isinstance(x, tuple):
                if len(x) == 2 and x[0] in ("opening_parenthesis", "closing_parenthesis"):
                    return (x[0], "*")
                return tuple(strip(y) for y in x)
            return x
        return strip(t)
    n = 0
    for expr in ("val", "2+val", "val*2", "1+2", "val-lab", "lab", "val+1$", "-val"):
        ref_text = f".word ({expr})\n"
        r0, pos0, errs0, raised0 = run_parser(I, "code", ref_text)
        if raised0 or errs0 or r0 is None:
            raise Unknown(f"'{ref_text.strip()}' does not parse cleanly (errors {errs0}, raised {raised0})")
        want = norm(r0)
        for op, cl in (("<", ">"), ("^/", "/"), ("^|", "|"), ("^:", ":"), ("^?", "?")):
            if cl in expr:
                continue
            text = f".word {op}{expr}{cl}\n"
            r, pos, errs, raised = run_parser(I, "code", text)
            n += 1
            ck.instance(("grouping", expr, op), {"text": text.strip(), "errors": errs, "raised": raised} if n % 5 == 0 else None, fn=where)
            got = norm(r) if r is not None else None
            if raised or errs or got != want:
                ck.violation(where, f"'{text.strip()}' " + (f"does not parse: errors {errs} / raised {raised}" if raised or errs else f"parses to {str(got)[:140]}") +
                             f"; '{ref_text.strip()}' parses to {str(want)[:140]}: the grouping characters do not change the expression", construct=f"grouping {op}…{cl}")
    if n < 25:
        ck.unknown(f"only {n} grouped expressions parsed")


def run(ck):
    from ..rules import route as _route
    ck.run_rule("C10.group", "( ) versus < > versus ^x...x grouping: the same expression tree (real parser)", 25, rule_grouping)
    ck.run_rule("BLK.route", "an implicit word list and '.word' are one statement: values, byte order and the meaning of '.' agree", 1, _route.rule_block_route)
    ck.run_rule("C10.parse", "letter case, horizontal whitespace, blank lines, comments and a missing final newline do not change the parse tree (real parser on a statement corpus)", 150, rule_respell)
    ck.run_rule("G6", "comparisons of source text with cased constants are case-folded", 25, rule_G6)
    ck.run_rule("G6.tab", "symbol/instruction/operator tables are case-insensitive; every method lowers its key", 10, rule_tables)
    ck.run_rule("G6.par", "Parser.regex / Parser.literal ignore case by default and no site overrides it", 30, rule_parsers)
    ck.run_rule("G11", "'%N' registers: possibly-deferred values are only used the way deferreds can be used", 5, escape.rule_G11)
    ck.run_rule("C01.T2r", "register aliases r0..r7, sp, pc in any case", 14, c01.rule_T2_registers)
    ck.run_rule("C01.S", "mnemonic synonyms encode identically", 30, c01.rule_S)
    ck.run_rule("C01.T2", "'(rN)' == '@rN' and the other operand shapes", 40, c01.rule_T2)
    ck.run_rule("C01.T5", "index operands with the register written rN or %N encode alike, also when the index is an expression", 16, c01.rule_T5)
    ck.run_rule("C05.R9", "( ) / < > / ^x...x grouping is transparent", 3, c05.rule_R9)
    ck.run_rule("C05.R4", "the radix in which a number is written", 10, c05.rule_R4)
    ck.run_rule("C06.R23", "'.word' == implicit word list", 30, c06.rule_R23)
    ck.run_rule("C06.R6e", "escape letters in any case", 129, c06.rule_escapes)
    ck.run_rule("C15.rad50", "RADIX-50 folds case", 12, c15.rule_rad50)
    ck.run_rule("C15.lit", "^R literal folds case", 3, c15.rule_literal)
    from ..rules import treeimm
    ck.run_rule("G4.enc", "operand encoders, directive handlers and literal tokens do not write to the tokens they read (the equivalences above hold for every compilation of a token, not only the first)", 5,
                treeimm.rule_G4, ("insns", "types", "metacommands", "metacommand_impl", "builtins"))
