"""C18 - assembly is a pure function of its inputs (process-global state and determinism sources)."""
import ast
import pathlib

from ..engine import sym
from ..engine.interp import Rec, Raised, ExcVal, PyFn
from ..engine.loader import Unknown, norm_text, walk_local, FUNC_TYPES
from ..rules import guards
from ..rules.escape import IMPORT_TIME
from ..rules.world import eager_interp, emit_report_summary

EXPLANATION = (
    "G5: complete inventory of process-global mutable state: every module-level or class-level object that is written "
    "after its definition (subscript/attribute stores, mutating method calls, augmented assignments), with the set of "
    "functions that write it. Each object must fall in one class: import-time registry (all writers run at import), "
    "balanced scope state (all writers are __enter__/__exit__ of one class and __exit__ restores what __enter__ changed "
    "on normal AND exceptional exit - decided by abstract execution), or inert counter (flows into message text only). "
    "Anything else is a violation. Determinism sources (iteration over sets, id()/hash(), random/time/uuid/os.environ) "
    "must not occur in modules reachable from assembly; the scan is first run on a positive-control fixture and must "
    "fire there.")
ASSUMPTIONS = ["`python -O` (which removes the pop() inside two asserts) is outside the property's configurations"]
TRUSTED = ["python ast", "sa.engine.interp"]
LEVEL_TEXT = "A global that is provably restored on every exit path is restored after any history of earlier assemblies; an object nobody writes after import cannot carry history."
LEVEL_NOTE = "who-may-write census is syntactic and complete for the constructs the repo uses; aliasing through local names of globals is followed one level"
TECHNIQUE = "mutation/ownership census of module- and class-level objects + abstract execution of the context managers on normal and exceptional exits + determinism-source lint with a positive control"

MUTATORS = {"append", "pop", "insert", "update", "extend", "remove", "clear", "setdefault", "add", "discard", "popitem", "sort", "reverse", "appendleft"}
PHASE_SKIP = ("devices", "_cli", "cli", "__main__", "__init__")
FIX = pathlib.Path(__file__).resolve().parent.parent.parent / "selftest" / "fixtures" / "g5_positive.py"


def global_objects(repo):
    """{(module, name)}: module-level names, and (module, 'Class.attr') class-level attributes"""
    objs = {}
    singletons = {}
    for mod in repo.modules.values():
        for s in mod.tree.body:
            if isinstance(s, (ast.Assign, ast.AnnAssign)):
                targets = s.targets if isinstance(s, ast.Assign) else [s.target]
                for t in targets:
                    if isinstance(t, ast.Attribute) and isinstance(t.value, ast.Name) and t.value.id in mod.classes:
                        objs[(mod.name, f"{t.value.id}.{t.attr}")] = s
                    if isinstance(t, ast.Name):
                        objs[(mod.name, t.id)] = s
                        v = s.value
                        if isinstance(v, ast.Call) and isinstance(v.func, ast.Name) and v.func.id in mod.classes:
                            singletons[(mod.name, t.id)] = v.func.id
            elif isinstance(s, ast.ClassDef):
                for b in s.body:
                    if isinstance(b, (ast.Assign, ast.AnnAssign)) and getattr(b, "value", None) is not None:
                        targets = b.targets if isinstance(b, ast.Assign) else [b.target]
                        for t in targets:
                            if isinstance(t, ast.Name):
                                objs[(mod.name, f"{s.name}.{t.id}")] = b
    return objs, singletons


def instance_attrs(cls):
    out = set()
    for n in ast.walk(cls):
        if isinstance(n, ast.FunctionDef) and n.name == "__init__":
            for a in ast.walk(n):
                if isinstance(a, ast.Attribute) and isinstance(a.ctx, ast.Store) and norm_text(a.value) == "self":
                    out.add(a.attr)
    return out


def census(repo):
    objs, singletons = global_objects(repo)
    singleton_classes = {(m, c) for (m, n), c in singletons.items()}
    writes = {}   # (module, objname) -> set of writer quals

    def record(key, writer, node):
        writes.setdefault(key, []).append((writer, node))

    def resolve_target(mod, fn, expr, enclosing_cls):
        """expr: the object being mutated -> key or None"""
        if isinstance(expr, ast.Name):
            nm = expr.id
            # local shadowing?
            if fn is not None:
                params = {a.arg for a in fn.args.args + fn.args.kwonlyargs} if not isinstance(fn, ast.Lambda) else {a.arg for a in fn.args.args}
                local_assigned = {t.id for n in walk_local(fn) for t in ast.walk(n) if isinstance(t, ast.Name) and isinstance(t.ctx, ast.Store)} if not isinstance(fn, ast.Lambda) else set()
                declared_global = {g for n in walk_local(fn) if isinstance(n, ast.Global) for g in n.names} if not isinstance(fn, ast.Lambda) else set()
                if (nm in params or nm in local_assigned) and nm not in declared_global:
                    return None
            if (mod.name, nm) in objs:
                return (mod.name, nm)
            if nm in mod.imports and mod.imports[nm][0] == "name":
                src = mod.imports[nm]
                if (src[1], src[2]) in objs:
                    return (src[1], src[2])
            return None
        if isinstance(expr, ast.Attribute):
            base = expr.value
            if isinstance(base, ast.Name):
                if base.id in ("self", "cls") and enclosing_cls is not None:
                    cname = enclosing_cls.name
                    key = (mod.name, f"{cname}.{expr.attr}")
                    # class-level attribute, looked up through the MRO
                    for cq in repo.mro(f"{mod.name}::{cname}"):
                        if "::" in cq:
                            m2, c2 = cq.split("::")
                            if (m2, f"{c2}.{expr.attr}") in objs and expr.attr not in instance_attrs(repo.cls(cq)):
                                return (m2, f"{c2}.{expr.attr}")
                    return None
                if base.id in mod.classes:
                    for cq in repo.mro(f"{mod.name}::{base.id}"):
                        if "::" in cq:
                            m2, c2 = cq.split("::")
                            if (m2, f"{c2}.{expr.attr}") in objs:
                                return (m2, f"{c2}.{expr.attr}")
                    return (mod.name, f"{base.id}.{expr.attr}")
                if base.id in mod.imports and mod.imports[base.id][0] == "module":
                    m2 = mod.imports[base.id][1]
                    if (m2, expr.attr) in objs:
                        return (m2, expr.attr)
                if base.id in mod.imports and mod.imports[base.id][0] == "name":
                    src = mod.imports[base.id]
                    if src[1] in repo.modules and src[2] in repo.modules[src[1]].classes:
                        return (src[1], f"{src[2]}.{expr.attr}")
            return None
        if isinstance(expr, ast.Subscript):
            return resolve_target(mod, fn, expr.value, enclosing_cls)
        return None

    def scan(mod, body_nodes, writer, fn, enclosing_cls):
        for n in body_nodes:
            if isinstance(n, (ast.Assign, ast.AugAssign, ast.AnnAssign)):
                targets = n.targets if isinstance(n, ast.Assign) else [n.target]
                for t in targets:
                    for tt in (t.elts if isinstance(t, (ast.Tuple, ast.List)) else [t]):
                        if isinstance(tt, ast.Subscript):
                            k = resolve_target(mod, fn, tt.value, enclosing_cls)
                            if k:
                                record(k, writer, n)
                        elif isinstance(tt, ast.Attribute):
                            # attribute store on a global object or class attribute
                            k = resolve_target(mod, fn, tt, enclosing_cls)
                            if k and (k in objs):
                                # self.x = ... in a class: only global if x is class-level and the class has a module singleton, or target is Class.x
                                if isinstance(tt.value, ast.Name) and tt.value.id == "self":
                                    if (k[0], k[1].split(".")[0]) in singleton_classes or isinstance(n, ast.AugAssign) and (k[0], k[1].split(".")[0]) in singleton_classes:
                                        record(k, writer, n)
                                else:
                                    record(k, writer, n)
                            elif k is None and isinstance(tt.value, ast.Name):
                                k2 = resolve_target(mod, fn, tt.value, enclosing_cls)
                                if k2:
                                    record(k2, writer, n)
                        elif isinstance(tt, ast.Name) and isinstance(n, ast.AugAssign):
                            k = resolve_target(mod, fn, tt, enclosing_cls)
                            if k:
                                record(k, writer, n)
            if isinstance(n, ast.Call) and isinstance(n.func, ast.Attribute) and n.func.attr in MUTATORS:
                k = resolve_target(mod, fn, n.func.value, enclosing_cls)
                if k:
                    record(k, writer, n)
            if isinstance(n, ast.Global) and fn is not None:
                for g in n.names:
                    if (mod.name, g) in objs:
                        record((mod.name, g), writer, n)

    for mod in repo.modules.values():
        # module level (outside functions/classes bodies' functions)
        top = []
        for s in mod.tree.body:
            if isinstance(s, (ast.FunctionDef, ast.ClassDef)):
                continue
            top.extend(ast.walk(s))
        # do not count the defining assignment itself
        defining = {id(v) for v in objs.values()}
        scan(mod, [n for n in top if id(n) not in defining], f"{mod.name}::<module>", None, None)
        for q, fn in mod.functions.items():
            cls = None
            p = fn
            while p is not None:
                if isinstance(p, ast.ClassDef):
                    cls = p
                    break
                p = getattr(p, "_parent", None)
            scan(mod, list(walk_local(fn)), f"{mod.name}::{q}", fn, cls)
    return objs, singletons, writes


def is_import_time(repo, writer):
    if writer.endswith("::<module>") or writer in IMPORT_TIME:
        return True
    from ..rules.escape import import_time_functions
    if writer in import_time_functions(repo):
        return True
    base = writer.split("::")[1]
    # decorator bodies registered at import
    return writer in ("devices::register_device.decorator", "devices::register_device", "metacommand_impl::_metacommand_impl", "formats::file_format", "operators::operator", "operators::operator.decorator", "insns::init")


def rule_inventory(ck):
    repo = ck.repo
    objs, singletons, writes = census(repo)
    classes = {}
    for key, ws in sorted(writes.items()):
        writers = sorted({w for w, _ in ws})
        if all(is_import_time(repo, w) for w in writers):
            cls = "registry (import-time writers only)"
        elif all(w.split(".")[-1] in ("__enter__", "__exit__") for w in writers) and len({w.rsplit(".", 1)[0] for w in writers}) == 1:
            cls = "balanced scope state"
        elif key == ("deferred", "Deferred.next_instance_id") and all(w in ("deferred::Deferred.__init__", "deferred::<module>") for w in writers):
            cls = "inert counter"
        else:
            cls = None
        classes[key] = (cls, writers)
        ck.instance(("global", key), {"object": f"{key[0]}.{key[1]}", "writers": writers, "class": cls}, fn=writers[0])
        if cls is None:
            bad = [w for w in writers if not is_import_time(repo, w)]
            node = [n for w, n in ws if w in bad][0]
            ck.violation(node, f"process-global object {key[0]}.{key[1]} is written at run time by {bad}: it survives from one assembly to the next, so a result can depend on what the same process assembled before",
                         construct=f"run-time write to global {key[0]}.{key[1]}")
    ck.global_classes = classes
    need = {("deferred", "TryCompute.depth"), ("deferred", "Awaiting.awaiting_stack"), ("reports", "handle_reports.handlers_stack"), ("deferred", "Deferred.next_instance_id"),
            ("insns", "instructions"), ("metacommand_impl", "metacommands"), ("builtins", "builtin_commands"), ("formats", "file_formats")}
    missing = need - set(writes) - {k for k in need if k in objs}      # still defined, just no longer written after its definition: fine
    # state that moved from the class to the one instance the module creates (self.depth = 0 in __init__ of a module-level singleton) is the same object
    for k in list(missing):
        cname, _, attr = k[1].partition(".")
        try:
            cls_ = repo.cls(f"{k[0]}::{cname}")
        except Exception:
            continue
        init = next((m for m in cls_.body if isinstance(m, ast.FunctionDef) and m.name == "__init__"), None)
        if init is not None and any(isinstance(a, ast.Assign) and any(isinstance(t, ast.Attribute) and t.attr == attr and norm_text(t.value) == "self" for t in a.targets) for a in ast.walk(init)):
            missing.discard(k)
    if missing:
        ck.unknown(f"global objects confirmed by hand no longer exist: {sorted(missing)}")
    # inert counter: uses of next_instance_id
    uses = []
    for q, fn in repo.all_functions():
        for n in walk_local(fn):
            if isinstance(n, ast.Attribute) and n.attr == "next_instance_id" and isinstance(n.ctx, ast.Load):
                p = n._parent
                while p is not None and not isinstance(p, ast.stmt):
                    p = p._parent
                uses.append((q, p))
    for q, st in uses:
        ck.instance(("counter-use", q, st.lineno), {"use": norm_text(st)[:80]}, fn=q)
        ok = (isinstance(st, ast.Assign) and norm_text(st.targets[0]) == "self.name") or isinstance(st, ast.AugAssign)
        if not ok:
            ck.violation(st, "the instance counter of deferred values flows into something other than the object's display name: results may depend on how many values earlier assemblies created", construct="next_instance_id use")
    # names of deferreds must not influence bytes: `name` is read in __repr__ only
    for q, fn in repo.all_functions():
        if q.startswith("deferred::") and not q.endswith("__repr__") and not q.endswith("__init__"):
            for n in walk_local(fn):
                if isinstance(n, ast.Attribute) and n.attr == "name" and norm_text(n.value) == "self" and isinstance(n.ctx, ast.Load):
                    ck.violation(n, "a deferred value's display name (which embeds a process-wide counter) is read outside __repr__", construct="deferred name read")


def rule_balance(ck):
    """__exit__ undoes __enter__ on normal and exceptional exit (abstract execution)"""
    repo = ck.repo
    I = eager_interp(repo)
    I.summaries = {"reports::emit_report": emit_report_summary}

    def snapshot():
        tc = I.module_get("deferred", "try_compute")
        aw = I.module_get("deferred", "Awaiting")
        hr = I.module_get("reports", "handle_reports")
        depth = tc.fields.get("depth", tc.cls.attrs.get("depth"))
        return depth, list(aw.attrs["awaiting_stack"]), list(hr.attrs["handlers_stack"])

    def mk(kind):
        if kind == "try_compute":
            return I.module_get("deferred", "try_compute")
        if kind == "Awaiting":
            d = Rec(I.module_get("deferred", "BaseDeferred"))
            d.fields["is_awaiting"] = False
            return I.instantiate(I.module_get("deferred", "Awaiting"), [d], {})
        h = PyFn(lambda I_, a, k: None, "handler")
        return I.instantiate(I.module_get("reports", "handle_reports"), [h], {})
    excs = {"none": None, "NotReadyError": ("deferred", "NotReadyError"), "RecoverableError": ("reports", "RecoverableError"), "UnrecoverableError": ("reports", "UnrecoverableError"),
            "DeferredCycle": ("deferred", "DeferredCycle"), "TypeError": None}
    for kind, where in (("try_compute", "deferred::TryCompute"), ("Awaiting", "deferred::Awaiting"), ("handle_reports", "reports::handle_reports")):
        for exc in excs:
            def thunk():
                before = snapshot()
                m = mk(kind)
                I.call_method(m, "__enter__", [])
                during = snapshot()
                if exc == "none":
                    et = None
                elif excs[exc]:
                    et = I.module_get(*excs[exc])
                else:
                    et = I.builtin_types["TypeError"]
                try:
                    I.call_method(m, "__exit__", [et, None, None])
                except Raised:
                    pass
                after = snapshot()
                extra = m.fields["deferred"].fields.get("is_awaiting") if kind == "Awaiting" else None
                return before, during, after, extra
            ps = I.explore(thunk)
            for p in ps:
                if p.kind != "return":
                    ck.violation(where, f"{kind}: enter/exit with exception {exc} raised {p.value!r} in the analysis", construct=f"{kind} balance {exc}")
                    continue
                before, during, after, extra = p.value
                ck.instance(("balance", kind, exc, len(ps)), {"manager": kind, "leaving with": exc, "global state before/inside/after": [repr(before), repr(during), repr(after)]} if exc in ("none", "TypeError") else None, fn=where + ".__exit__")
                if before == during:
                    ck.violation(where + ".__enter__", f"{kind}.__enter__ does not change the global state it is meant to guard", construct=f"{kind} enter")
                if after != before:
                    ck.violation(where + ".__exit__", f"{kind}: leaving the scope {'normally' if exc == 'none' else 'with ' + exc} does not restore the process-global state (before {before!r}, after {after!r}): "
                                                      "a failed assembly leaves it behind and the next assembly in the same process behaves differently", construct=f"{kind} exit does not restore ({'normal' if exc == 'none' else 'exception'})")
                if kind == "Awaiting" and extra is not False:
                    ck.violation(where + ".__exit__", "Awaiting.__exit__ leaves the deferred marked 'awaiting'", construct="Awaiting is_awaiting reset")
    # __enter__ that raises must not leave anything behind (Awaiting raises DeferredCycle for a cycle)
    def thunk2():
        before = snapshot()
        d = Rec(I.module_get("deferred", "BaseDeferred"))
        d.fields["is_awaiting"] = True
        m = I.instantiate(I.module_get("deferred", "Awaiting"), [d], {})
        try:
            I.call_method(m, "__enter__", [])
        except Raised:
            pass
        return before, snapshot()
    ps = I.explore(thunk2)
    ck.instance(("balance", "Awaiting", "enter raises"), None, fn="deferred::Awaiting.__enter__")
    if ps[0].kind == "return" and ps[0].value[0] != ps[0].value[1]:
        ck.violation("deferred::Awaiting.__enter__", "Awaiting.__enter__ changes global state before raising DeferredCycle: __exit__ is not run for a failed __enter__, so the state leaks", construct="Awaiting enter leaks on cycle")
    # the managers are used only as `with` items
    for clsname, single in (("Awaiting", None), ("handle_reports", None), ("TryCompute", "try_compute")):
        for q, fn in repo.all_functions():
            for c in guards.calls_in(fn):
                if isinstance(c.func, ast.Name) and c.func.id == clsname or (isinstance(c.func, ast.Attribute) and c.func.attr == clsname):
                    p = c._parent
                    ok = isinstance(p, ast.withitem)
                    ck.instance(("with-use", clsname, q), None, fn=q)
                    if not ok:
                        ck.violation(c, f"{clsname}(...) is created outside a 'with' statement: its __exit__ is not guaranteed to run", construct=f"{clsname} outside with")
    for q, fn in repo.all_functions():
        for n in walk_local(fn):
            if isinstance(n, ast.Name) and n.id == "try_compute" and isinstance(n.ctx, ast.Load):
                p = n._parent
                if not isinstance(p, ast.withitem) and not (isinstance(p, ast.Attribute) and p.attr == "depth"):
                    ck.violation(n, "try_compute is used outside a 'with' statement", construct="try_compute outside with")
    # effectful asserts (NOTE)
    for q in ("deferred::Awaiting.__exit__", "reports::handle_reports.__exit__"):
        fn = repo.func(q)
        for n in walk_local(fn):
            if isinstance(n, ast.Assert) and any(isinstance(c, ast.Call) and isinstance(c.func, ast.Attribute) and c.func.attr in MUTATORS for c in ast.walk(n.test)):
                ck.note(f"{q}: the balancing pop() is the operand of an assert; under 'python -O' the stack would never be popped")


def determinism_scan(modules):
    """modules: [(name, tree)] -> list of (modname, node, what)"""
    out = []
    for name, tree in modules:
        imported = {}
        for n in ast.walk(tree):
            if isinstance(n, ast.Import):
                for a in n.names:
                    imported[a.asname or a.name.split(".")[0]] = a.name
            if isinstance(n, ast.ImportFrom) and n.level == 0:
                for a in n.names:
                    imported[a.asname or a.name] = f"{n.module}.{a.name}"
        for n in ast.walk(tree):
            if isinstance(n, (ast.For, ast.comprehension)):
                it = n.iter
                if isinstance(it, (ast.Set, ast.SetComp)) or (isinstance(it, ast.Call) and isinstance(it.func, ast.Name) and it.func.id in ("set", "frozenset")):
                    out.append((name, n if isinstance(n, ast.For) else it, "iteration over a set (order depends on hash randomisation)"))
            if isinstance(n, ast.Call) and isinstance(n.func, ast.Name) and n.func.id in ("id", "hash") and n.func.id not in imported:
                out.append((name, n, f"{n.func.id}() of an object (address / hash dependent)"))
            if isinstance(n, ast.Attribute) and isinstance(n.value, ast.Name) and imported.get(n.value.id) in ("random", "time", "uuid", "secrets"):
                out.append((name, n, f"use of {imported[n.value.id]}.{n.attr}"))
            if isinstance(n, ast.Attribute) and n.attr in ("environ", "getpid", "urandom") and isinstance(n.value, ast.Name) and imported.get(n.value.id) == "os":
                out.append((name, n, f"use of os.{n.attr}"))
        out += [(name, n, w) for n, w in _unordered_flows(tree)]
    return out


def _is_set_expr(e, sets, dsets):
    if isinstance(e, (ast.Set, ast.SetComp)):
        return True
    if isinstance(e, ast.Call) and isinstance(e.func, ast.Name) and e.func.id in ("set", "frozenset"):
        return True
    if isinstance(e, ast.Name) and e.id in sets:
        return True
    if isinstance(e, ast.Subscript) and isinstance(e.value, ast.Name) and e.value.id in dsets:
        return True
    if isinstance(e, ast.BinOp) and isinstance(e.op, (ast.BitOr, ast.BitAnd, ast.Sub, ast.BitXor)) and (_is_set_expr(e.left, sets, dsets) or _is_set_expr(e.right, sets, dsets)):
        return True
    if isinstance(e, ast.Call) and isinstance(e.func, ast.Attribute) and e.func.attr in ("union", "intersection", "difference", "symmetric_difference", "copy") and _is_set_expr(e.func.value, sets, dsets):
        return True
    return False


def _unordered_flows(tree):
    """per function: names holding sets (set(), {..}, values of a defaultdict(set)) and lists made from them without a total
    sort; such a collection consumed in order (a for loop, a comprehension, sorted(.., key=..) whose ties keep the set's order,
    list(), join) makes the result depend on hash randomisation"""
    out = []
    for fn in ast.walk(tree):
        if not isinstance(fn, (ast.FunctionDef, ast.AsyncFunctionDef)):
            continue
        sets, dsets, unordered = set(), set(), set()
        grew = True
        while grew:
            grew = False
            for n in ast.walk(fn):
                if isinstance(n, ast.Assign) and len(n.targets) == 1 and isinstance(n.targets[0], ast.Name):
                    t, v = n.targets[0].id, n.value
                    if isinstance(v, ast.Call) and norm_text(v.func).split(".")[-1] == "defaultdict" and v.args and isinstance(v.args[0], ast.Name) and v.args[0].id in ("set", "frozenset"):
                        if t not in dsets:
                            dsets.add(t); grew = True
                    elif _is_set_expr(v, sets, dsets):
                        if t not in sets:
                            sets.add(t); grew = True
                    elif (isinstance(v, ast.Call) and isinstance(v.func, ast.Name) and v.func.id in ("list", "tuple") and v.args and (_is_set_expr(v.args[0], sets, dsets) or (isinstance(v.args[0], ast.Name) and v.args[0].id in unordered))) \
                            or (isinstance(v, ast.ListComp) and any(_is_set_expr(g.iter, sets, dsets) or (isinstance(g.iter, ast.Name) and g.iter.id in unordered) for g in v.generators)):
                        if t not in unordered:
                            unordered.add(t); grew = True
                if isinstance(n, (ast.For, ast.comprehension)) and isinstance(n.iter, ast.Call) and isinstance(n.iter.func, ast.Attribute) and n.iter.func.attr in ("items", "values") \
                        and isinstance(n.iter.func.value, ast.Name) and n.iter.func.value.id in dsets:
                    tgt = n.target
                    val = tgt.elts[1] if n.iter.func.attr == "items" and isinstance(tgt, ast.Tuple) and len(tgt.elts) == 2 else (tgt if n.iter.func.attr == "values" else None)
                    if isinstance(val, ast.Name) and val.id not in sets:
                        sets.add(val.id); grew = True
        if not (sets or dsets):
            continue

        def loose(e):
            return _is_set_expr(e, sets, dsets) or (isinstance(e, ast.Name) and e.id in unordered)
        for n in ast.walk(fn):
            if isinstance(n, ast.For) and loose(n.iter):
                out.append((n, f"iteration over the set {norm_text(n.iter)} (order depends on hash randomisation)"))
            elif isinstance(n, ast.comprehension) and loose(n.iter) and not isinstance(getattr(n, "_parent", None), (ast.SetComp,)):
                # feeding a total sort / a set / a membership test is fine; a list or generator keeps the order
                par = getattr(n, "_parent", None)
                if isinstance(par, (ast.ListComp, ast.GeneratorExp, ast.DictComp)):
                    gp = getattr(par, "_parent", None)
                    total = isinstance(gp, ast.Call) and isinstance(gp.func, ast.Name) and ((gp.func.id == "sorted" and not gp.keywords) or gp.func.id in ("set", "frozenset", "sum", "len", "any", "all", "min", "max"))
                    assigned = isinstance(gp, ast.Assign)
                    if not total and not assigned:
                        out.append((par, f"iteration over the set {norm_text(n.iter)} (order depends on hash randomisation)"))
            elif isinstance(n, ast.Call) and isinstance(n.func, ast.Name) and n.func.id == "sorted" and n.args and loose(n.args[0]) and any(k.arg == "key" for k in n.keywords):
                out.append((n, f"sorted({norm_text(n.args[0])}, key=...) over a set (elements with equal keys keep the set's order, which depends on hash randomisation)"))
            elif isinstance(n, ast.Call) and isinstance(n.func, ast.Attribute) and n.func.attr == "sort" and isinstance(n.func.value, ast.Name) and n.func.value.id in unordered and any(k.arg == "key" for k in n.keywords):
                out.append((n, f"{n.func.value.id}.sort(key=...) of a list made from a set (elements with equal keys keep the set's order, which depends on hash randomisation)"))
            elif isinstance(n, ast.Call) and isinstance(n.func, ast.Attribute) and n.func.attr == "join" and n.args and loose(n.args[0]):
                out.append((n, f"join over the set {norm_text(n.args[0])} (order depends on hash randomisation)"))
    return out


def rule_determinism(ck):
    repo = ck.repo
    # positive control
    fix = determinism_scan([("fixture", ast.parse(FIX.read_text()))])
    kinds = {w.split(" ")[0] + w.split(" ")[-1] for _, _, w in fix}
    ck.instance("positive-control", {"fixture hits": [w for _, _, w in fix]}, fn="selftest/fixtures/g5_positive.py")
    if len(fix) < 6:
        raise Unknown(f"positive control: the determinism scan found only {len(fix)} of the 6 planted patterns")
    mods = [(m.name, m.tree) for m in repo.modules.values() if m.name not in PHASE_SKIP]
    hits = determinism_scan(mods)
    for m in mods:
        ck.instance(("scanned", m[0]), None, fn=f"{m[0]}::<module>")
    for name, node, what in hits:
        ck.violation(node, f"{what} in a module reachable from assembly: the result may differ between runs or depend on PYTHONHASHSEED", construct=f"{what.split(' (')[0]} in {name}")


MEMO_DECORATORS = {"lru_cache", "cache", "cached_property", "memoize", "memoized", "singledispatch"}


def rule_memo(ck):
    """A memoising decorator is a process-global table written on every call: what one assembly parsed or computed is handed to the next."""
    repo = ck.repo
    n = 0
    for q, fn in repo.all_functions():
        if isinstance(fn, ast.Lambda):
            continue
        n += 1
        for d in fn.decorator_list:
            f = d.func if isinstance(d, ast.Call) else d
            name = f.attr if isinstance(f, ast.Attribute) else (f.id if isinstance(f, ast.Name) else None)
            if name is None:
                continue
            ck.instance(("decorator", q, name), {"function": q, "decorator": norm_text(d)[:60]}, fn=q)
            target = name
            if isinstance(f, ast.Name) and f.id in fn._module.imports and fn._module.imports[f.id][0] == "ext":
                target = fn._module.imports[f.id][1].split(".")[-1]
            if target in MEMO_DECORATORS and target != "singledispatch":
                ck.violation(fn, f"{q.split('::')[1]} is memoised with @{norm_text(d)[:40]}: the cache is a process-global table that outlives an assembly, so a later assembly in the same process receives the "
                                 "object computed for an earlier one (a parse tree carries values and flags stored on its nodes while compiling: operators.wrap_impure, the *_error_emitted flags)",
                             construct=f"memoised function {q.split('::')[1]}")
    # module-level cache dictionaries are in the G5.inv census; here: objects created once per process by default arguments
    for q, fn in repo.all_functions():
        if isinstance(fn, ast.Lambda) or q.split("::")[0] in PHASE_SKIP:
            continue
        for dflt in fn.args.defaults + [k for k in fn.args.kw_defaults if k is not None]:
            if isinstance(dflt, (ast.List, ast.Dict, ast.Set)) or (isinstance(dflt, ast.Call) and isinstance(dflt.func, ast.Name) and dflt.func.id in ("list", "dict", "set", "bytearray", "defaultdict")):
                ck.instance(("mutable-default", q), {"function": q, "default": norm_text(dflt)}, fn=q)
                params = [a.arg for a in fn.args.args + fn.args.kwonlyargs]
                # which parameter
                written = [m for m in walk_local(fn) if isinstance(m, ast.Call) and isinstance(m.func, ast.Attribute) and m.func.attr in MUTATORS and isinstance(m.func.value, ast.Name) and m.func.value.id in params]
                written += [m for m in walk_local(fn) if isinstance(m, (ast.Assign, ast.AugAssign)) and any(isinstance(t, ast.Subscript) and isinstance(t.value, ast.Name) and t.value.id in params
                                                                                                            for t in (m.targets if isinstance(m, ast.Assign) else [m.target]))]
                if written:
                    ck.violation(written[0], f"{q.split('::')[1]} has a mutable default argument ({norm_text(dflt)}) and updates a parameter in place: the default object is created once per process and keeps what earlier assemblies put in it",
                                 construct=f"mutable default updated in {q.split('::')[1]}")
    # class-level containers: one object for every instance of the class. Updated through an instance (self.x.append(..)) of a class
    # that is created once per assembly, it carries one assembly's registrations into the next
    SHARED_BY_DESIGN = {
        ("reports::handle_reports", "handlers_stack"): "the stack of open report scopes: one per process on purpose, balanced by G5.bal",
        ("deferred::Awaiting", "awaiting_stack"): "the stack of values being evaluated: one per process on purpose, balanced by G5.bal",
    }
    for cq, cls in repo.all_classes():
        for st in cls.body:
            if not (isinstance(st, ast.Assign) and len(st.targets) == 1 and isinstance(st.targets[0], ast.Name)):
                continue
            v = st.value
            if not (isinstance(v, (ast.List, ast.Dict, ast.Set)) or (isinstance(v, ast.Call) and isinstance(v.func, (ast.Name, ast.Attribute)) and norm_text(v.func).split(".")[-1] in ("list", "dict", "set", "bytearray", "defaultdict", "CaseInsensitiveDict", "OrderedDict"))):
                continue
            attr = st.targets[0].id
            ck.instance(("class-container", cq, attr), {"class": cq, "attribute": attr, "value": norm_text(v)[:40]}, fn=cq)
            if (cq, attr) in SHARED_BY_DESIGN:
                continue
            # re-bound per instance in __init__ ?
            init = next((m for m in cls.body if isinstance(m, ast.FunctionDef) and m.name == "__init__"), None)
            rebound = init is not None and any(isinstance(a, ast.Assign) and any(isinstance(t, ast.Attribute) and t.attr == attr and isinstance(t.value, ast.Name) and t.value.id == "self" for t in a.targets)
                                               for a in walk_local(init))
            if rebound:
                continue
            writes = []
            for q2, fn2 in repo.all_functions():
                if isinstance(fn2, ast.Lambda):
                    continue
                for m in walk_local(fn2):
                    if isinstance(m, ast.Call) and isinstance(m.func, ast.Attribute) and m.func.attr in MUTATORS and isinstance(m.func.value, ast.Attribute) and m.func.value.attr == attr:
                        writes.append((q2, m))
                    if isinstance(m, (ast.Assign, ast.AugAssign)):
                        for t in (m.targets if isinstance(m, ast.Assign) else [m.target]):
                            if isinstance(t, ast.Subscript) and isinstance(t.value, ast.Attribute) and t.value.attr == attr:
                                writes.append((q2, m))
            if writes:
                ck.violation(st, f"{cq.split('::')[1]}.{attr} is a class-level {norm_text(v)[:20]}: ONE object shared by every {cq.split('::')[1]} of the process, and "
                                 f"{writes[0][0].split('::')[1]} updates it in place ({norm_text(writes[0][1])[:60]}). What one assembly registers there (outputs to write, symbols, counters) is still there "
                                 "for the next assembly in the same process", construct=f"class-level container {cq.split('::')[1]}.{attr} updated through instances")
    # module-level templates: a container literal whose VALUES are containers, copied shallowly at run time ({**T}, dict(T), T.copy(), list(T), T[:]):
    # every copy shares the inner containers, so what one assembly (or one file) appends to them is there for the next
    def _mutable_literal(v):
        return isinstance(v, (ast.List, ast.Dict, ast.Set)) or (isinstance(v, ast.Call) and isinstance(v.func, ast.Name) and v.func.id in ("list", "dict", "set", "bytearray", "defaultdict", "CaseInsensitiveDict") and not v.args)
    for m_ in repo.modules.values():
        if m_.name in PHASE_SKIP:
            continue
        for st in m_.tree.body:
            if not (isinstance(st, ast.Assign) and len(st.targets) == 1 and isinstance(st.targets[0], ast.Name) and isinstance(st.value, (ast.Dict, ast.List, ast.Tuple))):
                continue
            inner = [v for v in (st.value.values if isinstance(st.value, ast.Dict) else st.value.elts) if v is not None and _mutable_literal(v)]
            if not inner:
                continue
            tname = st.targets[0].id
            for q, fn in repo.all_functions():
                if isinstance(fn, ast.Lambda) or q.split("::")[0] != m_.name:
                    continue
                for c in walk_local(fn):
                    shallow = (isinstance(c, ast.Dict) and any(k is None and isinstance(v, ast.Name) and v.id == tname for k, v in zip(c.keys, c.values))) \
                        or (isinstance(c, ast.Call) and isinstance(c.func, ast.Name) and c.func.id in ("dict", "list", "tuple") and c.args and isinstance(c.args[0], ast.Name) and c.args[0].id == tname) \
                        or (isinstance(c, ast.Call) and isinstance(c.func, ast.Attribute) and c.func.attr == "copy" and isinstance(c.func.value, ast.Name) and c.func.value.id == tname) \
                        or (isinstance(c, ast.Starred) and isinstance(c.value, ast.Name) and c.value.id == tname)
                    if shallow:
                        ck.instance(("template-copy", q, tname), {"template": f"{m_.name}.{tname}", "copied in": q, "inner containers": [norm_text(v) for v in inner]}, fn=q)
                        ck.violation(c, f"{q.split('::')[1]} copies the module-level template {tname} shallowly ({norm_text(c)[:50]}): its inner container(s) {[norm_text(v) for v in inner]} are created once per process and shared by "
                                        "every copy - what one file or one assembly puts into them is still there for the next", construct=f"shallow copy of the module-level template {m_.name}.{tname}")
    if n < 300:
        ck.unknown(f"only {n} functions seen (over 500 in the package)")


def rule_vivify(ck):
    """collections.defaultdict globals: a subscript READ inserts the key. At run time such a read must be dominated by a membership guard."""
    from ..engine import flow
    repo = ck.repo
    objs, _ = global_objects(repo)
    dd = {k for k, s in objs.items() if isinstance(getattr(s, "value", None), ast.Call) and norm_text(s.value.func).split(".")[-1] == "defaultdict"}
    ck.instance("defaultdict-globals", {"objects": sorted(f"{m}.{n}" for m, n in dd)})
    if ("devices", "DEVICES") not in dd:
        ck.unknown("devices.DEVICES is no longer recognised as a module-level defaultdict (anchor of the rule)")
    # membership-test functions: return a value computed from `x in OBJ`
    guards_fns = {}
    for (m, nm) in dd:
        for q, fn in repo.all_functions():
            if q.split("::")[0] == m and isinstance(fn, ast.FunctionDef):
                if any(isinstance(c, ast.Compare) and any(isinstance(o, ast.In) for o in c.ops) and norm_text(c.comparators[-1]) == nm for c in ast.walk(fn)) \
                        and not any(isinstance(x, ast.Subscript) and norm_text(x.value) == nm for x in ast.walk(fn)):
                    guards_fns.setdefault((m, nm), set()).add(fn.name)
    for (m, nm) in sorted(dd):
        mod = repo.modules[m]
        for q, fn in mod.functions.items():
            full = f"{m}::{q}"
            if isinstance(fn, ast.Lambda) or is_import_time(repo, full):
                continue
            loads = [x for x in walk_local(fn) if isinstance(x, ast.Subscript) and isinstance(x.ctx, ast.Load) and norm_text(x.value) == nm]
            if not loads:
                continue
            gnames = guards_fns.get((m, nm), set())

            def test_facts(test):
                neg = isinstance(test, ast.UnaryOp) and isinstance(test.op, ast.Not)
                t = test.operand if neg else test
                hit = False
                if isinstance(t, ast.Call) and flow.call_name(t) in gnames:
                    hit = True
                if isinstance(t, ast.Compare) and len(t.ops) == 1 and norm_text(t.comparators[0]) == nm and isinstance(t.ops[0], (ast.In, ast.NotIn)):
                    hit = True
                    if isinstance(t.ops[0], ast.NotIn):
                        neg = not neg
                if not hit:
                    return set(), set()
                return (set(), {"member"}) if neg else ({"member"}, set())
            for x in loads:
                facts = flow.facts_before(fn, x, lambda n_: set(), None, test_facts)
                ok = facts is not flow.TOP and facts is not None and "member" in facts
                ck.instance(("defaultdict-read", full, norm_text(x)), {"function": full, "read": norm_text(x), "membership guard dominates": bool(ok)}, fn=full)
                if not ok and facts is not flow.TOP:
                    ck.violation(x, f"run-time read {norm_text(x)} of the module-level defaultdict {m}.{nm} is not preceded by a membership test: a missing key is INSERTED by the read, the table survives the "
                                    f"assembly, and later membership tests ({', '.join(sorted(gnames)) or 'x in ' + nm}) answer differently (a plain file '~name' becomes a device path for the rest of the process)",
                                 construct=f"unguarded read of defaultdict {nm}")


def run(ck):
    ck.run_rule("G5.memo", "no memoised functions, no updated mutable defaults (process-global tables in disguise)", 40, rule_memo)
    ck.run_rule("G5.viv", "module-level defaultdicts are read at run time only behind a membership guard", 2, rule_vivify)
    ck.run_rule("G5.inv", "inventory of process-global mutable state; every object classified", 8, rule_inventory)
    ck.run_rule("G5.bal", "context managers restore global state on normal and exceptional exit; used only in `with`", 18, rule_balance)
    ck.run_rule("G5.det", "no determinism sources in assembly modules (with positive control)", 10, rule_determinism)
