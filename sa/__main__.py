from .cli import main
import sys
sys.exit(main())
