"""Rule outcomes, known findings, evidence and exit codes."""
import json
import ast
import os
import pathlib
import time

from .engine.loader import AnalysisError, Unknown, norm_text, public_qual

VERIF = pathlib.Path(__file__).resolve().parent.parent
KNOWN_FILE = VERIF / "known_findings.json"


class Finding:
    def __init__(self, rule, where, construct, message, line=None, path=None, expected=None, found=None):
        self.rule = rule
        self.where = where          # "module::Qual.name"
        self.construct = construct  # normalised text of the offending construct (line independent)
        self.message = message
        self.line = line
        self.path = path            # witness path for path rules
        self.expected = expected
        self.found = found

    def key(self):
        return (self.rule, self.where, self.construct)

    def as_dict(self):
        d = {"rule": self.rule, "where": self.where, "construct": self.construct, "message": self.message}
        for k in ("line", "path", "expected", "found"):
            v = getattr(self, k)
            if v is not None:
                d[k] = v
        return d


class RuleLog:
    def __init__(self, rule, title):
        self.rule = rule
        self.title = title
        self.instances = 0
        self.distinct = set()
        self.floor = 0
        self.samples = []
        self.findings = []
        self.unknowns = []
        self.notes = []
        self.functions = set()
        self.skipped = None


class Defect(Exception):
    """raised by helper code that folds or inspects program objects when the object itself is malformed in a way that makes the
    program die (a missing attribute every caller reads): reported as a violation at `where`, not as an analysis failure"""
    def __init__(self, where, message, construct):
        super().__init__(message)
        self.where, self.message, self.construct = where, message, construct


class Checker:
    """Collects what one run of one property's rules analysed and concluded."""

    def __init__(self, prop, repo, tier="quick"):
        self.prop = prop
        self.repo = repo
        self.tier = tier
        self.rules = {}
        self.current = None
        self.t0 = time.time()
        from .rules import guards
        guards.set_repo(repo)

    # -- rule scoping -----------------------------------------------------
    def rule(self, rule, title, floor=0):
        log = self.rules.get(rule)
        if log is None:
            log = self.rules[rule] = RuleLog(rule, title)
        log.floor = max(log.floor, floor)
        self.current = log
        return log

    def run_rule(self, rule, title, floor, fn, *args, **kwargs):
        log = self.rule(rule, title, floor)
        try:
            fn(self, *args, **kwargs)
        except Defect as d:
            self.current = log
            self.violation(d.where, d.message, construct=d.construct)
        except Unknown as ex:
            if os.environ.get("SA_DEBUG"):
                import traceback
                traceback.print_exc()
            log.unknowns.append(str(ex))
        except AnalysisError as ex:
            log.unknowns.append(str(ex))
        except RecursionError:
            log.unknowns.append("analysis recursion limit")
        except Exception as ex:  # checker bug: fail closed, never a verdict
            import traceback
            log.unknowns.append("checker exception: " + "".join(traceback.format_exception_only(type(ex), ex)).strip()
                                + " @ " + traceback.format_exc().strip().splitlines()[-3].strip())
        finally:
            self.current = log

    # -- recording ----------------------------------------------------------
    def instance(self, key, sample=None, fn=None):
        log = self.current
        log.instances += 1
        log.distinct.add(str(key))
        if sample is not None and len(log.samples) < 6:
            log.samples.append(sample)
        if fn:
            log.functions.add(fn)

    def where(self, node):
        return self.repo.enclosing_scope_qual(node)

    def violation(self, node_or_where, message, construct=None, expected=None, found=None, path=None, rule=None):
        log = self.current
        line = None
        if isinstance(node_or_where, str):
            where = node_or_where
            cons = construct or ""
        else:
            where = self.where(node_or_where)
            line = getattr(node_or_where, "lineno", None)
            cons = construct if construct is not None else norm_text(node_or_where)
        if len(cons) > 300:
            cons = cons[:300]
        where = public_qual(where)
        f = None
        for w_, c_ in self._attribute_to_owners(where, cons):
            f = Finding(rule or log.rule, w_, c_, message, line=line, path=path,
                        expected=None if expected is None else str(expected), found=None if found is None else str(found))
            # de-duplicate
            if f.key() not in [g.key() for g in log.findings]:
                log.findings.append(f)
        return f

    def _owners(self, where, depth=3):
        """a private helper (module-level function or method whose name starts with one underscore) belongs to the public functions
        that reach it: a finding inside it is keyed by them, so that extracting a helper does not turn a listed finding into a new one"""
        mod, _, rest = where.partition("::")
        short = rest.split(".")[-1]
        if not (short.startswith("_") and not short.startswith("__")) or depth == 0:
            return [where]
        try:
            fn = self.repo.func(where)
        except Exception:
            return [where]
        owners = []
        for q2, fn2 in self.repo.all_functions():
            pq = public_qual(q2)
            if pq == where:
                continue
            for c in ast.walk(fn2):
                if isinstance(c, ast.Call) and ((isinstance(c.func, ast.Name) and c.func.id == short) or (isinstance(c.func, ast.Attribute) and c.func.attr == short)):
                    if pq not in owners:
                        owners.append(pq)
                    break
        out = []
        for o in owners:
            for oo in self._owners(o, depth - 1):
                if oo not in out:
                    out.append(oo)
        return sorted(out) or [where]

    def _attribute_to_owners(self, where, cons):
        owners = self._owners(where)
        if owners == [where]:
            return [(where, cons)]
        short = where.partition("::")[2]
        return [(o, cons.replace(short, o.partition("::")[2]) if short and short in cons else cons) for o in owners]

    def unknown(self, message):
        self.current.unknowns.append(message)

    # exceptions that are never part of the assembler's own error discipline: a path of the real code that ends in one
    # (on inputs the rule built from well-formed objects) is the program crashing, not the analysis failing
    CRASHES = ("AttributeError", "TypeError", "KeyError", "IndexError", "NameError", "UnboundLocalError", "RecursionError", "ZeroDivisionError",
               "struct.error", "ValueError", "OverflowError", "AssertionError", "UnicodeEncodeError", "UnicodeDecodeError", "LookupError", "StopIteration")

    def incomplete(self, where, what, paths):
        """an abstract run of real code did not end in exactly one normal return: internal exception -> violation, else unknown"""
        for p in paths:
            exc = getattr(p, "value", None)
            if getattr(p, "kind", None) == "raise" and getattr(exc, "name", None) in self.CRASHES:
                self.violation(where, f"{what}: the code dies with {exc.name}{tuple(str(a)[:80] for a in (getattr(exc, 'args', None) or ()))} "
                                      "(an internal exception, not a diagnostic: the 'unexpected internal compiler error' path)", construct=f"{what}: internal exception")
                return
        raise Unknown(f"{what}: {paths}")

    def note(self, message):
        if message not in self.current.notes:
            self.current.notes.append(message)


def load_known():
    if not KNOWN_FILE.exists():
        return []
    data = json.loads(KNOWN_FILE.read_text())
    return data.get("findings", [])


def finish(checker, seed=0, level="other", explanation="", assumptions=(), trusted_base=(), quiet=False):
    """Apply known findings, write evidence + replay files, print the verdict, return exit code."""
    prop = checker.prop
    known = [k for k in load_known() if prop in k.get("properties", [])]
    ev_dir = VERIF / "evidence"
    if os.environ.get("SA_NO_EVIDENCE"):
        import tempfile
        ev_dir = pathlib.Path(tempfile.mkdtemp(prefix="sa-ev-"))
    rp_dir = ev_dir / "replay"
    rp_dir.mkdir(parents=True, exist_ok=True)
    for old in rp_dir.glob(f"{prop}-*.json"):
        old.unlink()

    lines = []
    violations = []
    known_hits = []
    unknowns = []
    floors_missed = []
    obligations = 0
    discharged = 0
    evaluations = 0
    distinct = 0
    rules_out = []
    samples = []
    functions = set()
    for rule, log in checker.rules.items():
        evaluations += log.instances
        distinct += len(log.distinct)
        obligations += max(len(log.distinct), 1)
        functions |= log.functions
        rule_bad = 0
        for f in log.findings:
            match = None
            for k in known:
                if k.get("status") == "known" and k.get("rule") == f.rule and k.get("where") == f.where \
                        and k.get("construct") == f.construct:
                    match = k
                    break
            if match:
                known_hits.append((f, match))
            else:
                violations.append(f)
            rule_bad += 1
        if log.unknowns:
            unknowns += [(rule, u) for u in log.unknowns]
        if log.instances < log.floor and not log.unknowns and not rule_bad:     # a rule cut short by its own finding has not passed vacuously
            floors_missed.append((rule, log.instances, log.floor))
        ok = not log.findings and not log.unknowns and log.instances >= log.floor
        discharged += max(len(log.distinct), 1) - rule_bad if ok or log.findings else 0
        rules_out.append({
            "rule": rule, "title": log.title, "instances": log.instances, "distinct": len(log.distinct),
            "floor": log.floor, "findings": [f.as_dict() for f in log.findings], "unknown": log.unknowns,
            "notes": log.notes, "functions": sorted(log.functions), "samples": log.samples[:4],
        })
        for s in log.samples[:2]:
            samples.append({"rule": rule, "instance": s})

    n = 0
    for f in violations:
        n += 1
        rp = rp_dir / f"{prop}-{n}.json"
        rp.write_text(json.dumps({"property": prop, **f.as_dict(), "repo": str(checker.repo.root)}, indent=1, ensure_ascii=False))
        lines.append(f"  [{f.rule}] {f.where}" + (f":{f.line}" if f.line else "") + f": {f.message}")
        if f.construct:
            lines.append(f"      construct: {f.construct}")
        if f.expected is not None or f.found is not None:
            lines.append(f"      expected: {f.expected}   found: {f.found}")
        if f.path:
            lines.append(f"      path: {' -> '.join(f.path)}")
        lines.append(f"VIOLATION property={prop} replay={rp}")
    for f, k in known_hits:
        lines.append(f"KNOWN-FINDING: property={prop} [{f.rule}] {f.where}: {k.get('what', f.message)}")
    for rule, u in unknowns:
        lines.append(f"ANALYSIS-ERROR property={prop} rule={rule}: {u}")
    for rule, got, floor in floors_missed:
        lines.append(f"ANALYSIS-ERROR property={prop} rule={rule}: only {got} instances matched, floor is {floor} (rule would pass vacuously)")

    wall = time.time() - checker.t0
    coverage = {
        "explanation": explanation,
        "obligations": obligations,
        "discharged": max(discharged, 0),
        "evaluations": max(evaluations, 1),
        "distinct_nontrivial": max(distinct, 0),
        "rule": "one evaluation = one rule instance (a table row, call site, guard cell, path or thunk) found in the current "
                "source and compared with its reference; distinct = distinct instance keys; an instance is non-trivial because "
                "it is matched against a real construct of /repo (rules matching nothing fail their floor)",
        "samples": samples[:12] or [{"note": "no instance matched"}],
        "checker_cmd": f"./check {prop} --tier {checker.tier}",
        "trusted_base": list(trusted_base) or ["python ast", "sa/ engine"],
        "rules": rules_out,
        "functions_analysed": sorted(functions),
        "modules_parsed": sorted(checker.repo.modules),
        "known_findings_reported": [f.as_dict() for f, _ in known_hits],
        "exhaustive": True,
    }
    evidence = {
        "property_id": prop,
        "tier": checker.tier,
        "seed": int(seed),
        "level": level,
        "coverage": coverage,
        "assumptions": list(assumptions),
        "wall_s": round(wall, 3),
        "violations": len(violations),
    }
    (ev_dir / f"{prop}.json").write_text(json.dumps(evidence, indent=1, ensure_ascii=False, default=str))

    if not quiet:
        print(f"== {prop}: {len(checker.rules)} rules, {evaluations} instances ({distinct} distinct), "
              f"{len(violations)} violations, {len(known_hits)} known findings, {len(unknowns) + len(floors_missed)} analysis errors, {wall:.2f}s")
        for rule, log in checker.rules.items():
            status = "VIOLATION" if log.findings else ("UNKNOWN" if log.unknowns or log.instances < log.floor else "pass")
            print(f"   {rule:<10} {status:<9} instances={log.instances:<4} floor={log.floor:<4} {log.title}")
            for nt in log.notes:
                print(f"      NOTE: {nt}")
        for ln in lines:
            print(ln)
    if os.environ.get("SA_NO_EVIDENCE"):
        import shutil
        shutil.rmtree(ev_dir, ignore_errors=True)
    if violations:
        return 1
    if unknowns or floors_missed:
        return 2
    return 0
